"""pyvc.runtime -- the `__vc` helper the rewritten code calls, model builtins, and the proof-unit driver."""
import builtins
import traceback
import types
import z3

from . import core
from .core import (ctx, SNum, SBool, SCplx, Q, Undecided, StopPath, PathRaise, lift, conc, ite, land, lor, implies,
                   forall, fresh_int, fresh_real, fresh_bool, is_sym, to_bool_term, lnot)
from .arr import SArr, sym_array, slen, as_index
from .extract import extract, ContractUnbound


# ----------------------------------------------------------------------------- model sequences

class SRange:
    """range() with symbolic bounds (step 1 or concrete positive step)"""

    def __init__(self, lo, hi, step=1):
        self.lo, self.hi, self.step = lo, hi, step
        if not isinstance(conc(step), int) or conc(step) == 0 or conc(step) < -1:
            raise Undecided("range with symbolic step (or step < -1) and symbolic bounds")
        self.step = conc(step)

    def sym_len(self):
        if self.step == -1:
            d = lift(self.lo) - lift(self.hi)
            return core.ite_pc(d < 0, 0, d)
        d = lift(self.hi) - lift(self.lo)
        if self.step != 1:
            d = (d + (self.step - 1)) // self.step
        return core.ite_pc(d < 0, 0, d)

    def sym_at(self, i):
        return lift(self.lo) + lift(i) * self.step

    def __slen__(self):
        return self.sym_len()


def _is_symbolic_iterable(it):
    if isinstance(it, SRange):
        return True
    if isinstance(it, SArr):
        return not isinstance(conc(it.shape[0]), int)
    return hasattr(it, "sym_len") and hasattr(it, "sym_at") and not isinstance(conc(it.sym_len()), int)


def m_range(*a):
    a = [as_index(x) for x in a]
    if all(isinstance(x, int) for x in a):
        return range(*a)
    if len(a) == 1:
        return SRange(0, a[0])
    if len(a) == 2:
        return SRange(a[0], a[1])
    return SRange(a[0], a[1], a[2])


def m_len(x):
    return slen(x)


def m_abs(x):
    return abs(x)


def m_int(x=0):
    if isinstance(x, SNum):
        if x.kind == "int":
            return x
        # truncation toward zero
        fl = SNum(z3.ToInt(x.t), "int")
        return ite(land(x < 0, lift(fl) != x), fl + 1, fl)
    return int(x)


def m_float(x=0.0):
    if isinstance(x, SNum):
        return SNum(z3.ToReal(x.t), "real") if x.kind == "int" else x
    return float(x)


def m_bool(x=False):
    if isinstance(x, SBool):
        return x
    if isinstance(x, SNum):
        return x != 0
    return bool(x)


def m_round(x, nd=None):
    if isinstance(x, SNum):
        if nd is not None:
            raise Undecided("round(x, ndigits) on a symbolic value")
        if x.kind == "int":
            return x
        h = x + 0.5
        fl = SNum(z3.ToInt(h.t), "int")
        tie = land(lift(fl) == h, fl % 2 == 1)
        return ite(tie, fl - 1, fl)
    return round(x) if nd is None else round(x, nd)


def m_isinstance(x, t):
    ts = t if isinstance(t, tuple) else (t,)
    real_ts = []
    for tt in ts:
        if tt is m_int or tt is int:
            if isinstance(x, SNum) and x.kind == "int":
                return True
            real_ts.append(int)
        elif tt is m_float or tt is float:
            if isinstance(x, SNum) and x.kind == "real":
                return True
            real_ts.append(float)
        elif tt is m_bool or tt is bool:
            if isinstance(x, SBool):
                return True
            real_ts.append(bool)
        else:
            real_ts.append(tt)
    return isinstance(x, tuple(real_ts))


def m_sorted(xs, key=None, reverse=False):
    xs = list(xs)
    if not any(is_sym(x) for x in xs):
        return sorted(xs, key=key, reverse=reverse)
    if key is not None or reverse:
        raise Undecided("sorted(key=/reverse=) on symbolic values")
    # external contract of sorted on a short list: an ordered permutation of the argument.
    # encoded by a sorting network of compare-exchange steps (exact, no fresh symbols)
    ys = [lift(x) for x in xs]
    n = len(ys)
    for i in range(n):
        for j in range(n - 1 - i):
            a, b = ys[j], ys[j + 1]
            c = a <= b
            ys[j], ys[j + 1] = ite(c, a, b), ite(c, b, a)
    return ys


def m_min(*a, **kw):
    if len(a) == 1:
        x = a[0]
        if isinstance(x, SArr):
            return x.min()
        a = list(x)
    if not any(is_sym(v) for v in a):
        return min(a, **kw)
    out = lift(a[0])
    for v in a[1:]:
        out = ite(lift(v) < out, v, out)
    return out


def m_max(*a, **kw):
    if len(a) == 1:
        x = a[0]
        if isinstance(x, SArr):
            return x.max()
        a = list(x)
    if not any(is_sym(v) for v in a):
        return max(a, **kw)
    out = lift(a[0])
    for v in a[1:]:
        out = ite(lift(v) > out, v, out)
    return out


def m_sum(xs, start=0):
    if hasattr(xs, "sym_sum"):
        return xs.sym_sum(start)
    out = start
    for x in xs:
        out = out + x
    return out


def m_print(*a, **k):
    return None


def m_all(xs):
    if hasattr(xs, "sym_all"):
        return xs.sym_all()
    out = True
    acc = []
    for x in xs:
        acc.append(x)
    if any(isinstance(x, SBool) for x in acc):
        return land(*acc)
    return all(acc)


def m_any(xs):
    if hasattr(xs, "sym_any"):
        return xs.sym_any()
    acc = list(xs)
    if any(isinstance(x, SBool) for x in acc):
        return lor(*acc)
    return any(acc)


def m_list(x=()):
    if hasattr(x, "sym_len"):
        return x
    if isinstance(x, SArr) and not isinstance(conc(x.shape[0]), int):
        return x
    return list(x)


def m_tuple(x=()):
    if hasattr(x, "sym_len"):
        return x
    if isinstance(x, SArr) and not isinstance(conc(x.shape[0]), int):
        return x
    return tuple(x)


def m_enumerate(x, start=0):
    if hasattr(x, "sym_enumerate"):
        return x.sym_enumerate(start)
    return enumerate(x, start)


def m_zip(*xs, **kw):
    if any(hasattr(x, "sym_zip") for x in xs):
        for x in xs:
            if hasattr(x, "sym_zip"):
                return x.sym_zip(xs)
    return zip(*xs)


MODEL_BUILTINS = dict(len=m_len, range=m_range, abs=m_abs, int=m_int, float=m_float, bool=m_bool, round=m_round,
                      isinstance=m_isinstance, sorted=m_sorted, min=m_min, max=m_max, sum=m_sum, print=m_print,
                      all=m_all, any=m_any, list=m_list, tuple=m_tuple, enumerate=m_enumerate, zip=m_zip)


# ----------------------------------------------------------------------------- havoc

def fresh_like(old, name="h"):
    if isinstance(old, core.SOpaque):
        return core.SOpaque(z3.Const(ctx().fresh_name(name), old.t.sort()))
    if isinstance(old, SBool) or isinstance(old, bool):
        return fresh_bool(name)
    if isinstance(old, SNum):
        return fresh_int(name) if old.kind == "int" else fresh_real(name)
    if isinstance(old, int):
        return fresh_int(name)
    if isinstance(old, float):
        return fresh_real(name)
    if isinstance(old, SCplx) or isinstance(old, complex):
        return SCplx(fresh_real(name + ".re"), fresh_real(name + ".im"))
    if isinstance(old, SArr):
        return sym_array(ctx().fresh_name(name), old.shape, old.dtype)
    if old is None:
        return None
    if isinstance(old, (list, tuple)):
        vals = [fresh_like(v, "%s_%d" % (name, i)) for i, v in enumerate(old)]
        return type(old)(vals) if isinstance(old, tuple) else vals
    if hasattr(old, "fresh_like"):
        return old.fresh_like(name)
    if isinstance(old, (types.FunctionType, types.BuiltinFunctionType, type, types.ModuleType, str)):
        return old
    try:
        import numpy as np
        if isinstance(old, np.ndarray):
            out = np.empty(old.shape, dtype=object)
            for idx in np.ndindex(old.shape):
                out[idx] = fresh_like(old[idx].item() if hasattr(old[idx], "item") else old[idx], name)
            return out
        if isinstance(old, (np.integer, np.floating)):
            return fresh_like(old.item(), name)
    except ImportError:
        pass
    raise Undecided("cannot havoc a value of type %s (variable %s): give the loop contract a `havoc` entry" % (type(old).__name__, name))


class NS:
    """attribute view of a dict of locals"""

    def __init__(self, d, **extra):
        self.__dict__.update(d)
        self.__dict__.update(extra)

    def __getattr__(self, k):
        raise ContractUnbound("invariant refers to local `%s`, which is not bound at the loop" % k)


class LoopHandle:
    pass


class VC:
    """instance bound to one function execution; name in the function's globals: __vc"""

    def __init__(self, unit_name, loop_contracts, loops_meta, cuts=None):
        self.unit = unit_name
        self.cuts = cuts or []
        self._cut_seen = {}
        self._cut_owner = {}
        self.contracts = loop_contracts or {}
        self.meta = {l["id"]: l for l in loops_meta}
        for k, c in self.contracts.items():
            if k not in self.meta:
                raise ContractUnbound("%s: contract for loop #%d but the function has %d loops" % (unit_name, k, len(self.meta)))
            hdr = c.get("header")
            if hdr is not None and hdr != self.meta[k]["header"]:
                raise ContractUnbound("%s: loop #%d header is `%s`, contract expects `%s`" % (unit_name, k, self.meta[k]["header"], hdr))

    # -- loops
    def enter(self, k, kind, it):
        h = LoopHandle()
        h.k, h.kind, h.it = k, kind, it
        c = self.contracts.get(k)
        h.c = c
        if kind == "for":
            h.concrete = not _is_symbolic_iterable(it)
            if not h.concrete and c is None:
                raise Undecided("%s: loop #%d `for .. in %s` has symbolic length and no invariant" % (self.unit, k, self.meta[k]["header"]))
            if not h.concrete:
                h.n = it.sym_len() if hasattr(it, "sym_len") else it.shape[0]
        else:
            h.concrete = c is None
            h.n = None
        h.pos = 0
        return h

    def _clauses(self, h, L, pos):
        ns = NS(L, pos=pos, n=h.n, old=h.old, it=h.it)
        with core.spec_mode():
            out = h.c["inv"](ns)
        return list(out) if isinstance(out, (list, tuple)) else [out]

    def inv_entry(self, h, L):
        h.old = NS(dict(L))
        for j, cl in enumerate(self._clauses(h, L, 0)):
            ctx().oblige("%s/loop#%d/inv-entry/%d" % (self.unit, h.k, j), cl, kind="inv-entry")

    def havoc(self, h, L, mods):
        new = {}
        over = h.c.get("havoc", {})
        names = list(mods) + [m for m in h.c.get("modifies_extra", []) if m not in mods]
        for m in names:
            if m in over:
                new[m] = over[m](L.get(m), NS(dict(L)))
            elif m in L:
                if m in h.c.get("frame", ()):      # contract says: not really modified (e.g. appended-to alias handled elsewhere)
                    continue
                new[m] = fresh_like(L[m], m)
        if h.kind == "for":
            p = fresh_int("pos%d" % h.k)
            ctx().assume(land(p >= 0, p <= h.n))
            h.pos = p
        return new

    def target(self, h):
        return h.it.sym_at(h.pos) if hasattr(h.it, "sym_at") else h.it[h.pos]

    def inv_assume(self, h, L):
        for cl in self._clauses(h, L, h.pos):
            ctx().assume(cl)

    def more(self, h):
        return lift(h.pos) < h.n

    def advance(self, h):
        if h.kind == "for":
            h.pos = h.pos + 1

    def inv_preserve(self, h, L):
        for j, cl in enumerate(self._clauses(h, L, h.pos)):
            ctx().oblige("%s/loop#%d/inv-preserve/%d" % (self.unit, h.k, j), cl, kind="inv-preserve")
        var = h.c.get("variant")
        if var is not None:
            pass

    def stop(self, h):
        raise StopPath("loop#%d body" % h.k)

    # -- cuts (mid-conditions): prove, then continue ONE path from an abstracted state
    def cut(self, k, L):
        c = self.cuts[k]
        cx = ctx()
        real = NS(dict(L))
        with core.spec_mode():
            both = list(c["cond"](real))
            only = list(c.get("also_prove", lambda L_: [])(real))
        for j, cl in enumerate(both + only):
            cx.oblige("%s/cut#%d/mid-condition/%d" % (self.unit, k, j), cl, kind="cut")
        # every local that is not abstracted must be the same on all paths that merge here
        snap = {}
        for nm, v in L.items():
            if nm in c["vars"] or nm.startswith("__vc"):
                continue
            snap[nm] = _fingerprint(v)
        if k in self._cut_seen and self._cut_owner[k] != tuple(cx.decisions):
            if snap != self._cut_seen[k]:
                diff = [nm for nm in snap if snap.get(nm) != self._cut_seen[k].get(nm)]
                raise Undecided("%s: cut #%d does not abstract local(s) %s that differ between paths" % (self.unit, k, diff))
            raise StopPath("merged at cut#%d" % k)
        self._cut_seen[k] = snap
        self._cut_owner[k] = tuple(cx.decisions)
        new = {}
        for v in c["vars"]:
            if v in L:
                new[v] = fresh_like(L[v], v)
        mark = cx.entry_marks[-1] if cx.entry_marks else 0
        del cx.pc[mark:]
        cx._solver = None
        cx._solver_n = 0
        cx.store_indices = []
        ns = NS({**L, **new})
        with core.spec_mode():
            for cl in c["cond"](ns):
                cx.assume(cl)
        cx.ghost["cut%d" % k] = new
        return new

    def dtype_eq(self, arr, T, negate=False):
        import numpy as _np
        if isinstance(arr, _np.ndarray) and arr.dtype == object and T in (complex, float, _np.complex128, _np.float64):
            def kind(v):
                if isinstance(v, SNum):
                    return "real"
                if isinstance(v, (int, float, _np.integer, _np.floating)):
                    return "real0" if v == 0 else "real"
                return "cplx"
            ks = {kind(v) for v in arr.flat}
            is_c = "cplx" in ks
            r = is_c if T in (complex, _np.complex128) else (not is_c)
            if ks <= {"real0"}:
                r = True
        else:
            r = arr.dtype == T
        return (not r) if negate else r

    def contains(self, container, item, negate=False):
        if hasattr(container, "sym_contains"):
            r = container.sym_contains(item)
            return lnot(r) if negate else r
        r = item in container
        return (not r) if negate else r

    # -- comprehensions
    def unpack(self, shape, t):
        return _flatten_like(shape, t)

    def comp(self, kind, it, f, conds):
        if hasattr(it, "sym_comp"):
            return it.sym_comp(kind, f, conds)
        if isinstance(it, SRange) or (isinstance(it, SArr) and not isinstance(conc(it.shape[0]), int)):
            if kind in ("list", "gen") and not conds:
                n = it.sym_len() if isinstance(it, SRange) else it.shape[0]
                src = it
                at = (lambda i: src.sym_at(i)) if isinstance(it, SRange) else (lambda i: src[i])
                probe = f(at(fresh_int("probe")))
                dt = "bool" if isinstance(probe, SBool) else "cplx" if isinstance(probe, SCplx) else \
                    ("int" if isinstance(probe, SNum) and probe.kind == "int" else "real")
                return SArr((n,), lambda idx: f(at(idx[0])), dt)
            raise Undecided("filtered comprehension over a symbolic range")

        def gen():
            for x in it:
                ok = True
                for c in conds:
                    if not c(x):
                        ok = False
                        break
                if ok:
                    yield f(x)
        if kind == "list":
            return list(gen())
        if kind == "gen":
            return gen()
        if kind == "set":
            return set(gen())
        if kind == "dict":
            return dict(gen())
        raise Undecided(kind)


def _flatten_like(shape, t):
    import ast as _ast
    node = _ast.parse(shape, mode="eval").body
    out = []

    def rec(n, v):
        if isinstance(n, _ast.Name):
            out.append(v)
        else:
            vs = list(v)
            if len(vs) != len(n.elts):
                raise ValueError("unpack")
            for e, x in zip(n.elts, vs):
                rec(e, x)
    rec(node, t)
    return out


# ----------------------------------------------------------------------------- running an extracted function

CODE_EXC = (AssertionError, ValueError, KeyError, IndexError, NotImplementedError, RuntimeError, ZeroDivisionError,
            AttributeError, TypeError, NameError, UnboundLocalError, OverflowError, StopIteration)


def _fingerprint(v):
    if isinstance(v, (SNum, SBool)):
        return z3.simplify(v.t).sexpr()
    if isinstance(v, SCplx):
        return (_fingerprint(v.re), _fingerprint(v.im))
    if isinstance(v, (list, tuple)):
        return tuple(_fingerprint(x) for x in v)
    if isinstance(v, SArr):
        return ("SArr", tuple(_fingerprint(lift(s)) for s in v.shape), v.base if v.base else id(v._fn))
    if isinstance(v, (int, float, str, bool, type(None))):
        return v
    return ("obj", type(v).__name__)


MODULE_NAMES = set()


def build_function(relpath, qualname, globs, loops=None, unit_name=None, rewrite_comps=True, cuts=None):
    """extract + compile the function, give it `globs` as module globals.  Returns (callable, Extracted)."""
    ex = extract(relpath, qualname, rewrite_comps=rewrite_comps, cuts=cuts)
    MODULE_NAMES.update(ex.module_names)
    g = dict(globs)
    g.setdefault("__builtins__", builtins)
    g["__vc"] = VC(unit_name or qualname, loops, ex.loops, cuts=cuts)
    g["__name__"] = "extracted"
    exec(ex.code, g)
    raw = g[ex.name]

    def entered(*a, **k):
        cx = ctx()
        cx.entry_marks.append(len(cx.pc))
        try:
            return raw(*a, **k)
        finally:
            cx.entry_marks.pop()
    entered.__name__ = ex.name
    entered.raw = raw
    g[ex.name] = entered          # recursive calls go through the wrapper as well
    return entered, ex


def run_paths(body, max_paths=4000, check_feasible=True):
    """explore `body` (a closure that builds inputs, calls the extracted function, states obligations).
    Code exceptions end the path with outcome 'raise' (c.result = the exception)."""
    def wrapped():
        try:
            return body()
        except (StopPath, PathRaise, Undecided, ContractUnbound):
            raise
        except RecursionError:
            raise Undecided("recursion limit")
        except CODE_EXC as e:
            # a failure of the MODEL (a stub or model object lacks something the code uses) is not a failure of the code
            if isinstance(e, AttributeError) and getattr(e, "obj", None) is not None:
                mod = getattr(type(e.obj), "__module__", "") or ""
                if mod.startswith("pyvc") or mod.startswith("contracts") or isinstance(e.obj, types.SimpleNamespace):
                    raise Undecided("model object %s has no attribute %r (unmodelled)" % (type(e.obj).__name__, getattr(e, "name", "?")))
                nm_ = getattr(e, "name", None)
                for kls in type(e.obj).__mro__:
                    if nm_ in getattr(kls, "__dict__", {}).get("__vc_source_names__", ()):
                        raise Undecided("the assembled class %s lacks %r, which the source class defines (not part of this unit's assembly)" % (kls.__name__, nm_))
            if isinstance(e, NameError) and not isinstance(e, UnboundLocalError):
                nm = getattr(e, "name", None)
                if nm and (hasattr(builtins, nm) or nm in MODULE_NAMES):
                    raise Undecided("global name %r is not provided by the contract's namespace (unmodelled)" % nm)
            # numpy refusing to cast / format a symbolic scalar is a limit of the shim, not a failure of the code
            if isinstance(e, (TypeError, ValueError)):
                msg = str(e)
                sym_names = ("Ph", "PhSum", "Scaled", "SNum", "SCplx", "SBool")
                if any(("not '%s'" % n_) in msg or ("not %s" % n_) in msg.split(",")[-1] for n_ in sym_names) and \
                        any(k_ in msg for k_ in ("must be real number", "must be a string or a real number", "must be a string or a number", "can't convert", "cannot convert")):
                    raise Undecided("numpy cannot cast a symbolic scalar here (%s): outside the shim" % msg)
            tb = traceback.extract_tb(e.__traceback__)
            where = [fr for fr in tb if fr.filename.startswith("<extracted")]
            inside_engine = bool(tb) and not where and all("/pyvc/" in fr.filename or "/contracts/" in fr.filename for fr in tb[1:])
            pr = PathRaise("%s: %s" % (type(e).__name__, e))
            pr.exc = e
            pr.where = ["%s:%d" % (fr.filename, fr.lineno) for fr in tb[-3:]]
            pr.last_frame_extracted = bool(tb) and tb[-1].filename.startswith("<extracted")
            raise pr from None
    return core.explore(wrapped, max_paths=max_paths, check_feasible=check_feasible)
