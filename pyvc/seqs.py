"""pyvc.seqs -- model sequences of symbolic length other than lambda arrays.

SortedIdx: a strictly increasing sequence of integers inside [lo, hi) given by a membership predicate -- what
`np.where(mask)[0]`, `[0] + list(that + 1) + [n]`, a filtering comprehension over it and `zip(b, b[1:])` produce.
Position-wise access uses an uninterpreted enumeration nth/rank tied to the predicate by three quantified axioms
(order isomorphism between [0, len) and the members).
"""
import z3
from .core import (ctx, SNum, SBool, lift, conc, Undecided, PathRaise, ite, land, lor, implies, forall, Q, fresh_int,
                   lnot, is_sym, ite_pc)
from .arr import SArr, as_index


class SortedIdx:
    def __init__(self, lo, hi, mem, name=None):
        self.lo, self.hi, self.mem = lo, hi, mem          # members x satisfy lo <= x < hi and mem(x)
        self.name = name or ctx().fresh_name("S")
        self._len = None
        self._nth = None

    @staticmethod
    def from_mask(c):
        n = c.shape[0]
        return SortedIdx(0, n, lambda x: c.get((x,)))

    def member(self, x):
        x = lift(x)
        return land(x >= self.lo, x < self.hi, self.mem(x))

    # ---- enumeration
    def _enum(self):
        if self._nth is None:
            c = ctx()
            nm = self.name
            ln = fresh_int("len_" + nm)
            nth = z3.Function("nth_" + nm, z3.IntSort(), z3.IntSort())
            rank = z3.Function("rank_" + nm, z3.IntSort(), z3.IntSort())
            self._len, self._nth, self._rank = ln, nth, rank
            me = self
            c.assume(ln >= 0)
            c.assume(forall(lambda p: implies(land(p >= 0, p < ln),
                                              land(me.member(SNum(nth(p.t), "int")), SNum(rank(nth(p.t)), "int") == p)), name="nth_" + nm))
            c.assume(forall(lambda p, q: implies(land(p >= 0, p < q, q < ln), SNum(nth(p.t), "int") < SNum(nth(q.t), "int")),
                            sorts=("int", "int"), name="inc_" + nm))
            c.assume(forall(lambda x: implies(me.member(x), land(SNum(rank(x.t), "int") >= 0, SNum(rank(x.t), "int") < ln,
                                                                SNum(nth(rank(x.t)), "int") == x)), name="rank_" + nm))
        return self._len, self._nth

    def sym_len(self):
        return self._enum()[0]

    __slen__ = sym_len

    def sym_at(self, i):
        ln, nth = self._enum()
        return SNum(nth(lift(i).t), "int")

    def nth_term(self, i):
        return self.sym_at(i)

    def __getitem__(self, k):
        if isinstance(k, slice):
            if k.step is None and k.stop is None and conc(k.start) == 1:
                return _Tail(self)
            raise Undecided("slice %r of a sorted index set" % (k,))
        ln, nth = self._enum()
        ck = conc(k)
        if isinstance(ck, int) and ck < 0:
            pos = ln + ck
        else:
            pos = lift(k)
        ctx().oblige("safety:index-in-sorted-set", land(pos >= 0, pos < ln), kind="safety")
        return SNum(nth(pos.t), "int")

    # ---- algebra
    def __add__(self, o):
        if isinstance(o, (int, SNum)):
            k = o
            me = self
            return SortedIdx(lift(self.lo) + k, lift(self.hi) + k, lambda x: me.mem(x - k))
        if isinstance(o, list):       # S + [b]   (b must lie at or above hi)
            out = self
            for b in o:
                out = out._append(b)
            return out
        return NotImplemented

    def __radd__(self, o):
        if isinstance(o, list):       # [a] + S   (a must lie below lo)
            out = self
            for a in reversed(o):
                out = out._prepend(a)
            return out
        if isinstance(o, (int, SNum)):
            return self + o
        return NotImplemented

    def _prepend(self, a):
        a = lift(a)
        ok = a < self.lo
        cok = conc(ok)
        if cok is not True:
            if cok is False:
                raise Undecided("prepending a value not below the sorted set")
            ctx().oblige("model:prepend-keeps-order", ok, kind="model")
        me = self
        return SortedIdx(a, self.hi, lambda x: lor(x == a, me.member(x)))

    def _append(self, b):
        b = lift(b)
        ok = b >= self.hi
        cok = conc(ok)
        if cok is not True:
            if cok is False:
                raise Undecided("appending a value not above the sorted set")
            ctx().oblige("model:append-keeps-order", ok, kind="model")
        me = self
        return SortedIdx(self.lo, b + 1, lambda x: lor(x == b, me.member(x)))

    def sym_comp(self, kind, f, conds):
        if kind not in ("list", "gen"):
            raise Undecided("comprehension kind %s over sorted set" % kind)
        # identity map with filters only
        probe = fresh_int("probe")
        fx = f(probe)
        if not (isinstance(fx, SNum) and z3.eq(z3.simplify(fx.t), probe.t)):
            raise Undecided("mapping comprehension over a sorted index set")
        me = self
        return SortedIdx(self.lo, self.hi, lambda x: land(me.mem(x), *[c(x) for c in conds]))

    def sym_zip(self, xs):
        if len(xs) == 2 and xs[0] is self and isinstance(xs[1], _Tail) and xs[1].base is self:
            return ConsecutivePairs(self)
        raise Undecided("zip pattern on sorted set")


class _Tail:
    def __init__(self, base):
        self.base = base

    def sym_zip(self, xs):
        return self.base.sym_zip(xs)


class ConsecutivePairs:
    """zip(S, S[1:]) : pairs (a, b) of members with no member strictly between, in increasing order"""

    def __init__(self, s):
        self.s = s

    def sym_len(self):
        ln = self.s.sym_len()
        return ite_pc(ln > 0, ln - 1, 0)

    __slen__ = sym_len

    def sym_at(self, i):
        return (self.s.sym_at(i), self.s.sym_at(lift(i) + 1))

    def sym_comp(self, kind, f, conds):
        if conds:
            return FilteredPairs(self, f, conds)
        return MappedSeq(self, f)


class MappedSeq:
    """[f(x) for x in base]  -- position-wise view of a model sequence"""

    def __init__(self, base, f):
        self.base, self.f = base, f

    def sym_len(self):
        return self.base.sym_len()

    __slen__ = sym_len

    def sym_at(self, i):
        return self.f(self.base.sym_at(i))

    def __getitem__(self, k):
        ln = self.sym_len()
        ck = conc(k)
        pos = ln + ck if isinstance(ck, int) and ck < 0 else lift(k)
        ctx().oblige("safety:index-in-seq", land(pos >= 0, pos < ln), kind="safety")
        return self.sym_at(pos)


class FilteredPairs:
    def __init__(self, base, f, conds):
        raise Undecided("filtered comprehension over consecutive pairs")
