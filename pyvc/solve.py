"""pyvc.solve -- discharge obligations  pc => goal  with z3 (cvc5 takes z3's unknowns).

Hygiene rules (DESIGN 2.1): goals are skolemised by the engine; a goal  A => B  is split into hypothesis A and goal B,
a conjunction into separate queries; quantified hypotheses (class Q) are instantiated here by a counter-model guided
loop (instances that the current candidate model violates are added, until unsat or no violated instance is left);
array cells are plain constants related by Ackermann constraints; hypotheses are sliced in stages (constants subset
of the goal's / cone of influence / all) -- `unsat` at any stage is a proof, a `sat` counts only at the last stage,
and is *trusted* only if no quantified hypothesis was involved.  In "uf" array mode the quantified hypotheses are also
handed to z3 as genuine quantifiers as a last resort (only `unsat` is used from that stage).
"""
import os
import subprocess
import tempfile
import time
from fractions import Fraction
import z3

from . import core
from .core import Q, Ctx, SNum, SBool

CVC5 = "/usr/bin/cvc5"


def _consts(e, acc=None):
    acc = set() if acc is None else acc
    todo = [e]
    seen = set()
    while todo:
        x = todo.pop()
        i = x.get_id()
        if i in seen:
            continue
        seen.add(i)
        if z3.is_app(x) and x.decl().kind() == z3.Z3_OP_UNINTERPRETED:
            acc.add(x.decl().name())
        todo += x.children()
    return acc


def _index_terms(exprs, acc, limit=400):
    """Int-sorted uninterpreted constants / applications and the integer arguments of uninterpreted functions"""
    todo = list(exprs)
    vis = set()
    while todo and len(acc) < limit:
        x = todo.pop()
        if x.get_id() in vis:
            continue
        vis.add(x.get_id())
        if z3.is_quantifier(x):
            continue
        if z3.is_app(x) and x.decl().kind() == z3.Z3_OP_UNINTERPRETED:
            if z3.is_int(x):
                acc.setdefault(x.sexpr(), x)
            for a_ in x.children():
                if z3.is_int(a_):
                    acc.setdefault(a_.sexpr(), a_)
        todo += x.children()
    return acc


def _cell_index_terms(cells, names, acc):
    for key, (arr, terms, v, dtype) in cells.items():
        vs = v if isinstance(v, tuple) else (v,)
        if any(x.decl().name() in names for x in vs):
            for t in terms:
                if z3.is_int(t):
                    t = z3.simplify(t)
                    acc.setdefault(t.sexpr(), t)
    return acc


class Problem:
    def __init__(self, ob, hints=()):
        self.ob = ob
        self.cells = dict(ob.get("cells") or {})
        self.ground = [h for h in ob["pc"] if not isinstance(h, Q)]
        self.qs = [h for h in ob["pc"] if isinstance(h, Q)]
        self.goal = ob["goal"]
        self.uf = ob.get("array_mode") == "uf"
        self.tmp = Ctx(check_feasible=False)
        self.tmp.cells = self.cells
        self.tmp.array_mode = ob.get("array_mode", "cells")
        self.tmp.counter = iter(range(10 ** 6, 10 ** 7))
        self.hints = [core.lift(t).t for t in hints]
        self.inst_cache = {}

    def instance(self, qi, cmb):
        key = (qi,) + tuple(t.sexpr() for t in cmb)
        if key in self.inst_cache:
            return self.inst_cache[key]
        prev = core._CUR[0]
        core._CUR[0] = self.tmp
        try:
            q = self.qs[qi]
            args = [SNum(t, "int") if z3.is_int(t) else SNum(t, "real") for t in cmb]
            try:
                it_ = q.inst(*args)
            except (core.Undecided, core.PathRaise):
                it_ = None
        finally:
            core._CUR[0] = prev
        if it_ is not None and z3.is_implies(it_):
            gd = z3.simplify(it_.arg(0))
            if z3.is_false(gd):
                it_ = None
            elif z3.is_true(gd):
                it_ = it_.arg(1)
        if it_ is not None and z3.is_true(it_):
            it_ = None
        self.inst_cache[key] = it_
        return it_

    def combos(self, qi, terms):
        q = self.qs[qi]
        ints = [t for t in terms if z3.is_int(t)]
        if all(s_ == "int" for s_ in q.sorts):
            if len(q.sorts) == 1:
                return [(t,) for t in ints]
            if len(q.sorts) == 2:
                return [(a, b) for a in ints[:48] for b in ints[:48]]
        return []

    def side_facts(self):
        """facts assumed while evaluating quantifier bodies (e.g. witnesses of min/max)"""
        return [h for h in self.tmp.pc if not isinstance(h, Q)]

    def ackermann(self, formulas):
        if self.uf:
            return []
        names = set()
        for f in formulas:
            names |= _consts(f)
        by_arr = {}
        for key, (arr, terms, v, dtype) in self.cells.items():
            vs = v if isinstance(v, tuple) else (v,)
            if any(x.decl().name() in names for x in vs):
                by_arr.setdefault(arr, []).append((terms, vs))
        ack = []
        for arr, lst in by_arr.items():
            for i in range(len(lst)):
                for j in range(i + 1, len(lst)):
                    (t1, v1), (t2, v2) = lst[i], lst[j]
                    eqs = [a == b for a, b in zip(t1, t2)]
                    cond = z3.simplify(z3.And(*eqs)) if eqs else z3.BoolVal(True)
                    if z3.is_false(cond):
                        continue
                    ack.append(z3.Implies(cond, z3.And(*[a == b for a, b in zip(v1, v2)])))
        return ack

    def natives(self):
        out = []
        if not (self.qs and self.uf):
            return out
        prev = core._CUR[0]
        core._CUR[0] = self.tmp
        try:
            for k, q in enumerate(self.qs):
                try:
                    out.append(q.native("%d" % k))
                except (core.Undecided, core.PathRaise):
                    pass
        finally:
            core._CUR[0] = prev
        return out


def _slice_min(hyps, goal):
    g = _consts(goal)
    return [h for h in hyps if _consts(h) <= g]


def _slice_cone(hyps, goal):
    rel = set(_consts(goal))
    hs = [(h, _consts(h)) for h in hyps]
    keep = [False] * len(hs)
    changed = True
    while changed:
        changed = False
        for k, (h, c) in enumerate(hs):
            if not keep[k] and (c & rel or not c):
                keep[k] = True
                rel |= c
                changed = True
    return [h for k, (h, c) in enumerate(hs) if keep[k]]


def _val(v):
    if v is None:
        return None
    if z3.is_int_value(v):
        return v.as_long()
    if z3.is_rational_value(v):
        return Fraction(v.numerator_as_long(), v.denominator_as_long())
    if z3.is_true(v):
        return True
    if z3.is_false(v):
        return False
    if z3.is_algebraic_value(v):
        a = v.approx(20)
        return Fraction(a.numerator_as_long(), a.denominator_as_long())
    return str(v)


def _run_cvc5(smt2, timeout_s):
    if not os.path.exists(CVC5):
        return "unknown"
    with tempfile.NamedTemporaryFile("w", suffix=".smt2", delete=False, dir=os.environ.get("VERIF_TMP", None)) as f:
        f.write("(set-logic ALL)\n" + smt2)
        path = f.name
    try:
        out = subprocess.run([CVC5, "--lang=smt2", "--tlimit=%d" % int(timeout_s * 1000), path], capture_output=True,
                             text=True, timeout=timeout_s + 5)
        first = (out.stdout.strip().splitlines() or ["unknown"])[0].strip()
        return first if first in ("sat", "unsat") else "unknown"
    except Exception:
        return "unknown"
    finally:
        os.unlink(path)


def _split_goal(hyps, goal, out):
    if z3.is_implies(goal):
        _split_goal(hyps + [goal.arg(0)], goal.arg(1), out)
    elif z3.is_and(goal) and goal.num_args() <= 12:
        for g in goal.children():
            _split_goal(hyps, g, out)
    else:
        out.append((hyps, goal))


def _check(hyps, neg, timeout_ms):
    s = z3.Solver()
    s.set("timeout", int(timeout_ms))
    s.add(*hyps)
    s.add(neg)
    return s, s.check()


def _free_consts(exprs, limit=600):
    """0-ary uninterpreted Real/Int constants of the formulas, or None if there are quantifiers / function applications / too many"""
    out, seen, todo = {}, set(), list(exprs)
    while todo:
        x = todo.pop()
        i = x.get_id()
        if i in seen:
            continue
        seen.add(i)
        if z3.is_quantifier(x):
            return None
        if z3.is_app(x) and x.decl().kind() == z3.Z3_OP_UNINTERPRETED:
            if x.num_args() > 0:
                return None
            if z3.is_real(x) or z3.is_int(x):
                out[x.decl().name()] = x
                if len(out) > limit:
                    return None
        todo += x.children()
    return out


def _random_point(hyps, neg, tries=3):
    """cheap refutation of (mostly polynomial) identities: fix every numeric constant to a random rational and let z3
    evaluate; a satisfiable instance is a genuine counter-model (hypotheses included), anything else says nothing"""
    import random
    cs = _free_consts(list(hyps) + [neg])
    if not cs:
        return None
    for t in range(tries):
        rnd = random.Random(977 + t)
        s = z3.Solver()
        s.set("timeout", 3000)
        for nm in sorted(cs):
            c = cs[nm]
            if z3.is_int(c):
                s.add(c == rnd.randint(-2, 7))
            else:
                s.add(c == z3.RealVal(rnd.randint(-12, 12)) / z3.RealVal(rnd.choice([1, 2, 3, 5, 7])))
        s.add(*hyps)
        s.add(neg)
        if s.check() == z3.sat:
            return s
    return None


def _staged(hyps, goal, timeout_ms, use_cvc5):
    """-> (verdict 'unsat'|'sat'|'unknown', backend, stage, solver-or-None)"""
    neg = z3.Not(goal)
    if len(hyps) <= 40:
        rp = _random_point(hyps, neg)
        if rp is not None:
            return ("sat", "z3(random point)", "all", rp)
    stages = [("min", _slice_min(hyps, goal)), ("cone", _slice_cone(hyps, goal)), ("all", hyps)]
    uniq = []
    for nm, hy in stages:
        if uniq and len(hy) == len(uniq[-1][1]):
            continue
        uniq.append((nm, hy))
    res = ("unknown", "z3", "all", None)
    for nm, hy in uniq:
        last = nm == uniq[-1][0]
        s, r = _check(hy, neg, timeout_ms if last else max(1000, timeout_ms // 3))
        if r == z3.unsat:
            return ("unsat", "z3", nm, None)
        if r == z3.unknown:
            if use_cvc5:
                if _run_cvc5(s.to_smt2(), max(2.0, timeout_ms / 1000.0)) == "unsat":
                    return ("unsat", "cvc5", nm, None)
            res = ("unknown", "z3+cvc5" if use_cvc5 else "z3", nm, None)
        elif last:
            return ("sat", "z3", nm, s)
    return res


def _solve_part(P, extra, goal, timeout_ms, use_cvc5, t0):
    if z3.is_true(z3.simplify(goal)):
        return dict(verdict="valid", backend="syntactic", stage="trivial")
    base = P.ground + extra
    insts = []
    seen = set()

    def add(it_):
        if it_ is None:
            return False
        k = it_.get_id()
        if k in seen:
            return False
        seen.add(k)
        insts.append(it_)
        return True

    gnames = _consts(goal)
    for e_ in extra:
        gnames |= _consts(e_)
    if P.qs:
        terms = {}
        _index_terms([goal] + extra, terms)
        _cell_index_terms(P.cells, gnames, terms)
        for t in P.hints:
            terms.setdefault(z3.simplify(t).sexpr(), z3.simplify(t))
        tl = list(terms.values())[:16]
        for qi in range(len(P.qs)):
            for cmb in P.combos(qi, tl[:10] if len(P.qs[qi].sorts) > 1 else tl):
                add(P.instance(qi, cmb))
    rounds = 12 if P.qs else 1
    final = None
    pool = None
    for rnd in range(rounds):
        hy = base + insts + P.side_facts()
        hy = hy + P.ackermann(hy + [goal])
        v, backend, stage, solver = _staged(hy, goal, timeout_ms, use_cvc5)
        if v == "unsat":
            return dict(verdict="valid", backend=backend, stage=stage if not P.qs else "%s/inst-round-%d" % (stage, rnd), n_inst=len(insts))
        final = (v, backend, stage, solver)
        if v == "unknown" or not P.qs:
            break
        # sat with quantified hypotheses: add the instances the candidate model violates
        m = solver.model()
        if pool is None:
            # candidate terms: generation 0 (goal, ground hypotheses) and generation 1 (first-round instances); the pool
            # is then frozen -- otherwise each candidate model breeds new nested terms and the loop never converges
            terms = {}
            _index_terms([goal] + extra, terms)
            _index_terms(insts, terms)
            _index_terms(base, terms)
            allnames = set(gnames)
            for h in hy:
                allnames |= _consts(h)
            _cell_index_terms(P.cells, allnames, terms)
            pool = list(terms.values())[:60]
        tl = pool
        added = 0
        for qi in range(len(P.qs)):
            for cmb in P.combos(qi, tl):
                it_ = P.instance(qi, cmb)
                if it_ is None or it_.get_id() in seen:
                    continue
                try:
                    val = m.eval(it_, model_completion=True)
                except z3.Z3Exception:
                    continue
                if z3.is_false(val):
                    if add(it_):
                        added += 1
                if added >= 150:
                    break
        if added == 0:
            break
        if time.time() - t0 > 6 * timeout_ms / 1000.0:
            break
    v, backend, stage, solver = final
    if P.qs and P.uf:
        nat = P.natives()
        if nat:
            hy = base + insts + P.side_facts()
            s, r = _check(hy + nat, z3.Not(goal), timeout_ms)
            if r == z3.unsat:
                return dict(verdict="valid", backend="z3-quant", stage="native-quantifiers", n_inst=len(insts))
    if v == "sat":
        m = solver.model()
        model = {}
        for d in m.decls():
            if d.arity() == 0:
                model[d.name()] = _val(m[d])
        cellvals = []
        for key, (arr, terms_, vv, dtype) in P.cells.items():
            try:
                idx = tuple(_val(m.eval(t, model_completion=True)) for t in terms_)
                vs = vv if isinstance(vv, tuple) else (vv,)
                val = tuple(_val(m.eval(x, model_completion=True)) for x in vs)
                cellvals.append((arr, idx, val if len(val) > 1 else val[0]))
            except Exception:
                pass
        if P.uf:       # uf-mode arrays: function interpretations sampled at small indices
            for d in m.decls():
                if d.arity() == 1 and d.domain(0) == z3.IntSort():
                    for iv in range(0, 24):
                        try:
                            cellvals.append((d.name(), (iv,), _val(m.eval(d(z3.IntVal(iv)), model_completion=True))))
                        except Exception:
                            pass
        return dict(verdict="refuted", backend="z3", stage=stage, model=model, cells=cellvals, trusted=not P.qs, n_inst=len(insts),
                    solver_output="sat\n" + "\n".join("%s = %s" % kv for kv in sorted(model.items(), key=lambda kv: kv[0])[:80]))
    return dict(verdict="unknown", backend=backend, stage=stage, n_inst=len(insts), reason="solver unknown")


def discharge(ob, timeout_ms=10000, use_cvc5=True, hints=()):
    """-> dict(verdict valid|refuted|unknown, backend, time_s, model, trusted, stage)"""
    t0 = time.time()
    if ob.get("trivial"):
        return dict(verdict="valid", backend="syntactic", time_s=0.0, stage="trivial")
    P = Problem(ob, hints=hints)
    parts = []
    _split_goal([], P.goal, parts)
    worst = None
    backends = set()
    stage = ""
    for extra, g in parts:
        r = _solve_part(P, extra, g, timeout_ms, use_cvc5, t0)
        if r["verdict"] == "refuted":
            r["time_s"] = time.time() - t0
            return r
        if r["verdict"] == "unknown":
            worst = r
        backends.add(r.get("backend"))
        stage = r.get("stage")
    if worst is not None:
        worst["time_s"] = time.time() - t0
        return worst
    return dict(verdict="valid", backend="+".join(sorted(b for b in backends if b)), time_s=time.time() - t0, stage=stage,
                parts=len(parts))


def check_sat(formulas, timeout_ms=5000):
    """satisfiability of the LINEAR part of a set of formulas (vacuity guard) -> 'sat' | 'unsat' | 'unknown'"""
    s = z3.Solver()
    s.set("timeout", timeout_ms)
    s.add(*[f for f in formulas if not isinstance(f, Q) and core.is_linear(f)])
    return str(s.check())
