"""pyvc.solve -- discharge obligations  pc => goal  with z3 (cvc5 takes z3's unknowns).

Hygiene rules (DESIGN 2.1): goals are skolemised by the engine; quantified hypotheses (class Q) are instantiated here
at the index terms of the query; array cells are plain constants related by Ackermann constraints; hypotheses are
sliced in stages (constants subset of the goal's / cone of influence / all) -- `unsat` at any stage is a proof, a
`sat` counts only at the last stage, and only as *trusted* if no quantified hypothesis was left partially instantiated.
"""
import os
import subprocess
import tempfile
import time
from fractions import Fraction
import z3

from . import core
from .core import Q, Ctx, SNum, SBool

CVC5 = "/usr/bin/cvc5"


def _consts(e, acc=None):
    acc = set() if acc is None else acc
    todo = [e]
    seen = set()
    while todo:
        x = todo.pop()
        i = x.get_id()
        if i in seen:
            continue
        seen.add(i)
        if z3.is_const(x) and x.decl().kind() == z3.Z3_OP_UNINTERPRETED:
            acc.add(x.decl().name())
        elif z3.is_app(x) and x.decl().kind() == z3.Z3_OP_UNINTERPRETED:
            acc.add(x.decl().name())
        todo += x.children()
    return acc


def _int_terms_of_cells(cells, names):
    """index terms of the cells whose constant occurs among `names`"""
    out = {}
    for key, (arr, terms, v, dtype) in cells.items():
        vs = v if isinstance(v, tuple) else (v,)
        if any(x.decl().name() in names for x in vs):
            for t in terms:
                if z3.is_int(t) and not z3.is_int_value(z3.simplify(t)):
                    out[z3.simplify(t).sexpr()] = z3.simplify(t)
    return out


def _skolems(goal_consts):
    return [n for n in goal_consts if n.startswith("sk!") or n.startswith("sk_")]


class Prepared:
    pass


def prepare(ob, hints=(), max_terms=14, rounds=2):
    """instantiate quantified hypotheses, add Ackermann constraints.  -> Prepared(hyps, goal, complete)"""
    cells = dict(ob.get("cells") or {})
    ground = [h for h in ob["pc"] if not isinstance(h, Q)]
    qs = [h for h in ob["pc"] if isinstance(h, Q)]
    goal = ob["goal"]
    tmp = Ctx(check_feasible=False)
    tmp.cells = cells
    tmp.counter = iter(range(10 ** 6, 10 ** 7))
    prev = core._CUR[0]
    core._CUR[0] = tmp
    try:
        insts = []
        seen = set()
        complete = not qs
        for rnd in range(rounds):
            names = _consts(goal)
            for h in ground + insts:
                pass
            # candidate index terms: those indexing cells that occur in the goal or in instances so far, + int consts of goal
            rel = set(names)
            for h in insts:
                rel |= _consts(h)
            terms = _int_terms_of_cells(cells, rel)
            for n in names:
                pass
            for t in hints:
                tt = core.lift(t).t
                terms[z3.simplify(tt).sexpr()] = z3.simplify(tt)
            # integer constants (skolems, loop positions) occurring in the goal
            todo = [goal]
            vis = set()
            while todo:
                x = todo.pop()
                if x.get_id() in vis:
                    continue
                vis.add(x.get_id())
                if z3.is_const(x) and z3.is_int(x) and x.decl().kind() == z3.Z3_OP_UNINTERPRETED:
                    terms[x.sexpr()] = x
                todo += x.children()
            tl = sorted(terms.items(), key=lambda kv: (len(kv[0]), kv[0]))[:max_terms]
            for q in qs:
                if len(q.sorts) == 1:
                    combos = [(t,) for _, t in tl]
                elif len(q.sorts) == 2:
                    combos = [(a, b) for _, a in tl[:8] for _, b in tl[:8]]
                else:
                    combos = []
                for cmb in combos:
                    key = (id(q),) + tuple(t.sexpr() for t in cmb)
                    if key in seen:
                        continue
                    seen.add(key)
                    try:
                        args = [SNum(t, "int") for t in cmb]
                        it_ = q.inst(*args)
                        if z3.is_implies(it_):
                            gd = z3.simplify(it_.arg(0))
                            if z3.is_false(gd):
                                continue
                            it_ = it_.arg(1) if z3.is_true(gd) else z3.Implies(gd, it_.arg(1))
                        if not z3.is_true(it_):
                            insts.append(it_)
                    except (core.Undecided, core.PathRaise):
                        continue
    finally:
        core._CUR[0] = prev
    hyps = ground + insts + [h for h in tmp.pc if not isinstance(h, Q)]
    # Ackermann constraints between cells of the same array
    by_arr = {}
    allnames = _consts(goal)
    for h in hyps:
        allnames |= _consts(h)
    for key, (arr, terms, v, dtype) in cells.items():
        vs = v if isinstance(v, tuple) else (v,)
        if any(x.decl().name() in allnames for x in vs):
            by_arr.setdefault(arr, []).append((terms, vs))
    ack = []
    for arr, lst in by_arr.items():
        for i in range(len(lst)):
            for j in range(i + 1, len(lst)):
                (t1, v1), (t2, v2) = lst[i], lst[j]
                eqs = [a == b for a, b in zip(t1, t2)]
                cond = z3.simplify(z3.And(*eqs)) if eqs else z3.BoolVal(True)
                if z3.is_false(cond):
                    continue
                ack.append(z3.Implies(cond, z3.And(*[a == b for a, b in zip(v1, v2)])))
    p = Prepared()
    p.hyps = hyps + ack
    p.goal = goal
    p.complete = complete
    p.n_inst = len(insts)
    p.n_ack = len(ack)
    return p


def _slice_min(hyps, goal):
    g = _consts(goal)
    return [h for h in hyps if _consts(h) <= g]


def _slice_cone(hyps, goal):
    rel = set(_consts(goal))
    hs = [(h, _consts(h)) for h in hyps]
    keep = [False] * len(hs)
    changed = True
    while changed:
        changed = False
        for k, (h, c) in enumerate(hs):
            if not keep[k] and (c & rel or not c):
                keep[k] = True
                rel |= c
                changed = True
    return [h for k, (h, c) in enumerate(hs) if keep[k]]


def _val(v):
    if v is None:
        return None
    if z3.is_int_value(v):
        return v.as_long()
    if z3.is_rational_value(v):
        return Fraction(v.numerator_as_long(), v.denominator_as_long())
    if z3.is_true(v):
        return True
    if z3.is_false(v):
        return False
    if z3.is_algebraic_value(v):
        a = v.approx(20)
        return Fraction(a.numerator_as_long(), a.denominator_as_long())
    return str(v)


def _run_cvc5(smt2, timeout_s):
    if not os.path.exists(CVC5):
        return "unknown"
    with tempfile.NamedTemporaryFile("w", suffix=".smt2", delete=False, dir=os.environ.get("VERIF_TMP", None)) as f:
        f.write("(set-logic ALL)\n" + smt2)
        path = f.name
    try:
        out = subprocess.run([CVC5, "--lang=smt2", "--tlimit=%d" % int(timeout_s * 1000), path], capture_output=True,
                             text=True, timeout=timeout_s + 5)
        first = (out.stdout.strip().splitlines() or ["unknown"])[0].strip()
        return first if first in ("sat", "unsat") else "unknown"
    except Exception:
        return "unknown"
    finally:
        os.unlink(path)


def _split_goal(hyps, goal, out):
    """pc |- A => B  becomes  pc, A |- B ;  pc |- B1 and B2  becomes two queries (hygiene rule 7: integer guards end
    up as hypotheses that slicing drops from a purely real consequent)"""
    goal = z3.simplify(goal, som=False) if False else goal
    if z3.is_implies(goal):
        _split_goal(hyps + [goal.arg(0)], goal.arg(1), out)
    elif z3.is_and(goal) and goal.num_args() <= 12:
        for g in goal.children():
            _split_goal(hyps, g, out)
    else:
        out.append((hyps, goal))


def discharge(ob, timeout_ms=10000, use_cvc5=True, hints=()):
    """-> dict(verdict valid|refuted|unknown, backend, time_s, model, trusted, stage)"""
    t0 = time.time()
    if ob.get("trivial"):
        return dict(verdict="valid", backend="syntactic", time_s=0.0, stage="trivial")
    p = prepare(ob, hints=hints)
    parts = []
    _split_goal([], p.goal, parts)
    if len(parts) == 1 and not parts[0][0]:
        return _discharge1(ob, p, p.hyps, p.goal, timeout_ms, use_cvc5, t0)
    worst = None
    backends = set()
    stage = ""
    for extra, g in parts:
        r = _discharge1(ob, p, p.hyps + extra, g, timeout_ms, use_cvc5, t0)
        if r["verdict"] == "refuted":
            r["time_s"] = time.time() - t0
            return r
        if r["verdict"] == "unknown":
            worst = r
        backends.add(r.get("backend"))
        stage = r.get("stage")
    if worst is not None:
        worst["time_s"] = time.time() - t0
        return worst
    return dict(verdict="valid", backend="+".join(sorted(b for b in backends if b)), time_s=time.time() - t0, stage=stage,
                n_inst=p.n_inst, n_ack=p.n_ack, parts=len(parts))


def _discharge1(ob, p, hyps_all, goal, timeout_ms, use_cvc5, t0):
    class _P:
        pass
    q = _P()
    q.hyps, q.goal, q.complete, q.n_inst, q.n_ack = hyps_all, goal, p.complete, p.n_inst, p.n_ack
    p = q
    if z3.is_true(z3.simplify(goal)):
        return dict(verdict="valid", backend="syntactic", time_s=time.time() - t0, stage="trivial", n_inst=p.n_inst, n_ack=p.n_ack)
    neg = z3.Not(goal)
    stages = [("min", _slice_min(p.hyps, goal)), ("cone", _slice_cone(p.hyps, goal)), ("all", p.hyps)]
    last = None
    uniq = []
    for nm, hy in stages:
        if uniq and len(hy) == len(uniq[-1][1]):
            continue
        uniq.append((nm, hy))
    unknown_smt2 = None
    for nm, hy in uniq:
        s = z3.Solver()
        s.set("timeout", timeout_ms if nm == uniq[-1][0] else max(1000, timeout_ms // 3))
        s.add(*hy)
        s.add(neg)
        r = s.check()
        if r == z3.unsat:
            return dict(verdict="valid", backend="z3", time_s=time.time() - t0, stage=nm, n_inst=p.n_inst, n_ack=p.n_ack)
        if r == z3.unknown:
            unknown_smt2 = s.to_smt2()
            if use_cvc5:
                r5 = _run_cvc5(unknown_smt2, max(2.0, timeout_ms / 1000.0))
                if r5 == "unsat":
                    return dict(verdict="valid", backend="cvc5", time_s=time.time() - t0, stage=nm, n_inst=p.n_inst, n_ack=p.n_ack)
            last = ("unknown", None)
            continue
        # sat
        if nm == uniq[-1][0]:
            m = s.model()
            model = {}
            for d in m.decls():
                if d.arity() == 0:
                    model[d.name()] = _val(m[d])
            cellvals = []
            for key, (arr, terms, v, dtype) in (ob.get("cells") or {}).items():
                try:
                    idx = tuple(_val(m.eval(t, model_completion=True)) for t in terms)
                    vs = v if isinstance(v, tuple) else (v,)
                    val = tuple(_val(m.eval(x, model_completion=True)) for x in vs)
                    cellvals.append((arr, idx, val if len(val) > 1 else val[0]))
                except Exception:
                    pass
            return dict(verdict="refuted", backend="z3", time_s=time.time() - t0, stage=nm, model=model, cells=cellvals,
                        trusted=p.complete, n_inst=p.n_inst, n_ack=p.n_ack,
                        solver_output="sat\n" + "\n".join("%s = %s" % kv for kv in sorted(model.items(), key=lambda kv: kv[0])[:60]))
        last = ("sat-partial", None)
    return dict(verdict="unknown", backend="z3+cvc5" if use_cvc5 else "z3", time_s=time.time() - t0, stage="all",
                n_inst=p.n_inst, n_ack=p.n_ack, reason=last[0] if last else "")


def check_sat(formulas, timeout_ms=5000):
    """satisfiability of a set of formulas (vacuity guard) -> 'sat' | 'unsat' | 'unknown'"""
    s = z3.Solver()
    s.set("timeout", timeout_ms)
    s.add(*[f for f in formulas if not isinstance(f, Q) and core.is_linear(f)])
    return str(s.check())
