#!/bin/sh
# Builds /verif/.overlay : z3-solver + cvc5 + jsonschema installed (offline, from the wheelhouse) as a plain
# --target directory that the checks append to sys.path of /venv/bin/python (the interpreter that has the repo's deps).
set -e
cd "$(dirname "$0")"
if [ -d .overlay/z3 ] && [ -d .overlay/cvc5 ] && [ -d .overlay/jsonschema ]; then echo "overlay present"; exit 0; fi
rm -rf .overlay
PIP_NO_INDEX=1 /venv/bin/python -m pip install -q --no-index --find-links /opt/veriftools/wheels --target .overlay z3-solver cvc5 jsonschema 2>&1 | grep -v -i warning || true
[ -d .overlay/z3 ] || { echo "overlay build failed"; exit 1; }
echo "overlay built"
