"""THROW-AWAY FEASIBILITY PROBE quoted in DESIGN.md section 1.3 -- NOT part of the verification machinery.

It generates verification conditions for `weights_tetra` (der=0, both evaluation branches) from the
REAL AST of /repo/wannierberri/grid/tetrahedron.py and discharges them with z3, to check that the
approach of DESIGN section 2.1 works and to learn which solver hygiene is needed (see DESIGN 2.1,
"Solver hygiene").  Run:  python3-vt notes/probe_weights_tetra_ast.py      (SRC=<file> to point at a mutant)
Result on the pinned tree: 41 + 34 obligations, all valid, < 3 s.  The engine proper will replace it.
"""
import ast, sys, time, itertools, hashlib, z3
import os
SRC=os.environ.get("SRC","/repo/wannierberri/grid/tetrahedron.py")
tree=ast.parse(open(SRC).read())
fn=[n for n in tree.body if isinstance(n,ast.FunctionDef) and n.name=="weights_tetra"][0]
print("function lines",fn.lineno,fn.end_lineno,"sha",hashlib.sha256(ast.get_source_segment(open(SRC).read(),fn).encode()).hexdigest()[:12])
R=z3.RealVal
CELLS={}
class SymArr:      # 1-D symbolic-length real array; engine-level store chain, cells are fresh Real constants
    def __init__(s,name,n,stores=(),default=None): s.name=name; s.n=n; s.stores=tuple(stores); s.default=default
    def store(s,i,v): return SymArr(s.name,s.n,s.stores+((i,v),),s.default)
    def select(s,i):
        if s.default is not None and not s.stores: return s.default
        key=(s.name,i.sexpr() if z3.is_expr(i) else str(i))
        if key not in CELLS: CELLS[key]=z3.Real("cell_%s_%d"%(s.name,len(CELLS)))
        out=s.default if s.default is not None else CELLS[key]
        for (k,v) in s.stores:
            same = z3.simplify(k==i) if z3.is_expr(k==i) else (k==i)
            if z3.is_true(same) or same is True: out=v
            elif z3.is_false(same) or same is False: pass
            else: out=z3.If(k==i,v,out)
        return out
class Path:
    def __init__(s,env,pc,obls): s.env=env; s.pc=pc; s.obls=obls
    def fork(s): return Path(dict(s.env),list(s.pc),s.obls)
class Return(Exception):
    def __init__(s,v,path): s.v=v; s.path=path
fresh_id=[0]
def fresh(name,sort=z3.RealSort()):
    fresh_id[0]+=1; return z3.Const(f"{name}!{fresh_id[0]}",sort)
def to_real(v):
    if isinstance(v,bool): raise TypeError
    if isinstance(v,(int,float)): return R(repr(v)) if isinstance(v,float) else z3.RealVal(v)
    if z3.is_int(v): return z3.ToReal(v)
    return v
def ev(e,p):
    if isinstance(e,ast.Constant): return e.value
    if isinstance(e,ast.Name): return p.env[e.id]
    if isinstance(e,ast.Tuple) or isinstance(e,ast.List): return [ev(x,p) for x in e.elts]
    if isinstance(e,ast.UnaryOp):
        v=ev(e.operand,p)
        if isinstance(e.op,ast.USub): return -v if not isinstance(v,(int,float)) else -v
        if isinstance(e.op,ast.Not): return z3.Not(v) if z3.is_expr(v) else (not v)
    if isinstance(e,ast.BinOp):
        a,b=ev(e.left,p),ev(e.right,p)
        conc=all(isinstance(x,(int,float)) for x in (a,b))
        if isinstance(e.op,ast.Pow):
            assert isinstance(b,int)
            if conc: return a**b
            r=to_real(a); out=r
            for _ in range(b-1): out=out*r
            return out
        if conc:
            return {ast.Add:a+b if True else 0}.get(type(e.op)) if isinstance(e.op,ast.Add) else (a-b if isinstance(e.op,ast.Sub) else a*b if isinstance(e.op,ast.Mult) else a/b)
        if z3.is_expr(a) and z3.is_int(a) and (isinstance(b,int) or (z3.is_expr(b) and z3.is_int(b))) and not isinstance(e.op,ast.Div):
            pass
        else:
            a,b=to_real(a),to_real(b)
        if isinstance(e.op,ast.Add): return a+b
        if isinstance(e.op,ast.Sub): return a-b
        if isinstance(e.op,ast.Mult): return a*b
        if isinstance(e.op,ast.Div):
            p.obls.append(("safety:div line %d"%e.lineno, list(p.pc), b!=0))
            return a/b
    if isinstance(e,ast.Compare):
        assert len(e.ops)==1
        a,b=ev(e.left,p),ev(e.comparators[0],p)
        if all(isinstance(x,(int,float,bool)) for x in (a,b)):
            return {ast.Eq:a==b,ast.Lt:a<b,ast.LtE:a<=b,ast.Gt:a>b,ast.GtE:a>=b,ast.NotEq:a!=b}[type(e.ops[0])]
        if not (z3.is_expr(a) and z3.is_int(a) and (isinstance(b,int) or z3.is_int(b))): a,b=to_real(a),to_real(b)
        return {ast.Eq:a==b,ast.Lt:a<b,ast.LtE:a<=b,ast.Gt:a>b,ast.GtE:a>=b,ast.NotEq:a!=b}[type(e.ops[0])]
    if isinstance(e,ast.BoolOp):
        vs=[ev(x,p) for x in e.values]
        if all(isinstance(v,bool) for v in vs): return all(vs) if isinstance(e.op,ast.And) else any(vs)
        vs=[z3.BoolVal(v) if isinstance(v,bool) else v for v in vs]
        return z3.And(*vs) if isinstance(e.op,ast.And) else z3.Or(*vs)
    if isinstance(e,ast.Subscript):
        base,idx=ev(e.value,p),ev(e.slice,p)
        if isinstance(base,list): return base[idx]
        if isinstance(base,SymArr):
            p.obls.append(("safety:index line %d"%e.lineno,list(p.pc),z3.And(idx>=0,idx<base.n)))
            return base.select(idx)
    if isinstance(e,ast.Call):
        f=ast.unparse(e.func); args=[ev(a,p) for a in e.args]
        if f=="sorted":      # external contract: ordered permutation of the argument
            xs=[to_real(x) for x in args[0]]; s=[fresh("s") for _ in xs]
            p.pc.append(z3.And(*[s[i]<=s[i+1] for i in range(len(s)-1)]))
            return s
        if f=="np.array": return list(args[0])
        if f=="len": return args[0].n if isinstance(args[0],SymArr) else len(args[0])
        if f=="np.zeros":
            return SymArr('occ0',args[0],default=z3.RealVal(0))
        if f=="range": return ("range",args)
    raise NotImplementedError(ast.dump(e)[:120])
def assign(t,v,p):
    if isinstance(t,ast.Name): p.env[t.id]=v
    elif isinstance(t,ast.Tuple):
        for tt,vv in zip(t.elts,v): assign(tt,vv,p)
    elif isinstance(t,ast.Subscript):
        base=ev(t.value,p); idx=ev(t.slice,p)
        if isinstance(base,list): base[idx]=v
        else:
            p.obls.append(("safety:index-store line %d"%t.lineno,list(p.pc),z3.And(idx>=0,idx<base.n)))
            p.env[t.value.id]=base.store(idx,to_real(v))
    else: raise NotImplementedError
INVARIANTS={}   # filled by the "sidecar"
def run_block(stmts,paths):
    for st in stmts:
        new=[]
        for p in paths: new+=step(st,p)
        paths=new
    return paths
def step(st,p):
    if isinstance(st,ast.Expr): return [p]      # docstring / bare expr
    if isinstance(st,ast.Assign):
        v=ev(st.value,p)
        for t in st.targets: assign(t,v,p)
        return [p]
    if isinstance(st,ast.Return):
        raise Return(ev(st.value,p),p)
    if isinstance(st,ast.If):
        c=ev(st.test,p)
        if isinstance(c,bool): return run_block(st.body if c else st.orelse,[p])
        # array-element stores under a symbolic condition on a python list: merge with ite to avoid path explosion in the 3-step loop
        pt,pf=p.fork(),p.fork(); pt.pc.append(c); pf.pc.append(z3.Not(c))
        pt.env=copy_env(pt.env); pf.env=copy_env(pf.env)
        return run_block(st.body,[pt])+run_block(st.orelse,[pf])
    if isinstance(st,ast.For):
        it=ev(st.iter,p); assert it[0]=="range"
        args=it[1]; lo,hi=(0,args[0]) if len(args)==1 else (args[0],args[1])
        if isinstance(hi,int):
            paths=[p]
            for i in range(lo,hi):
                for q in paths: q.env[st.target.id]=i
                paths=run_block(st.body,paths)
            # --- sidecar `cut`: after this loop abstract e to fresh values with e[0]<e[1]<e[2]<e[3]
            for q in paths:
                e=q.env["e"]
                q.obls.append((f"cut strict-order line {st.lineno}",list(q.pc),z3.And(*[e[k]<e[k+1] for k in range(3)])))
            base=paths[0].fork(); base.env=copy_env(p.env); base.pc=list(p.pc)
            pnew=[fresh("p") for _ in range(4)]
            base.env["e"]=pnew; base.pc.append(z3.And(*[pnew[k]<pnew[k+1] for k in range(3)])); base.env[st.target.id]=hi-1
            base.obls=paths[0].obls
            return [base]
        # symbolic loop: invariant cut
        inv=INVARIANTS[st.lineno]
        i0=z3.IntVal(lo)
        j0=fresh("j",z3.IntSort())
        p.obls.append((f"inv-entry line {st.lineno}",list(p.pc),inv(p.env,i0,j0)))
        q=p.fork(); q.env=copy_env(q.env)
        iv=fresh("i",z3.IntSort()); occ=q.env["occ"]; q.env["occ"]=SymArr("occH%d"%st.lineno,occ.n)
        q.env[st.target.id]=iv; q.pc+= [iv>=lo, iv<hi, inv(q.env,iv,j0)]
        for r in run_block(st.body,[q]):
            g=inv(r.env,iv+1,iv); r.obls.append((f"inv-preserve[j=i]/guard line {st.lineno}",list(r.pc),g.arg(0)))
            r.obls.append((f"inv-preserve[j=i] line {st.lineno}",list(r.pc),g.arg(1)))
            r.obls.append((f"inv-preserve[j<i] line {st.lineno}",list(r.pc)+[j0<iv],inv(r.env,iv+1,j0)))
        ex=p.fork(); ex.env=copy_env(ex.env); ex.env["occ"]=SymArr("occX%d"%st.lineno,occ.n)
        ex.env["__jpost"]=fresh("j",z3.IntSort()); ex.pc.append(inv(ex.env,hi,ex.env["__jpost"])); ex.env[st.target.id]=hi-1
        return [ex]
    raise NotImplementedError(ast.dump(st)[:100])
def copy_env(env): return {k:(list(v) if isinstance(v,list) else v) for k,v in env.items()}
# ---------------- sidecar contract -----------------
def V(e,E):
    e1,e2,e3,e4=e
    c1=(E-e1)**3/((e2-e1)*(e3-e1)*(e4-e1)) if False else (E-e1)*(E-e1)*(E-e1)/((e2-e1)*(e3-e1)*(e4-e1))
    c2=((e2-e1)*(e2-e1)+3*(e2-e1)*(E-e2)+3*(E-e2)*(E-e2)-((e3-e1)+(e4-e2))/((e3-e2)*(e4-e2))*(E-e2)*(E-e2)*(E-e2))/((e3-e1)*(e4-e1))
    c3=1-(e4-E)*(e4-E)*(e4-E)/((e4-e1)*(e4-e2)*(e4-e3))
    return z3.If(E>=e4,1,z3.If(E<e1,0,z3.If(E>=e3,c3,z3.If(E>=e2,c2,c1))))
def spread(s):
    out=[s[0]]
    for i in range(3): out.append(z3.If(s[i+1]-out[i]<R("1e-12"),out[i]+R("1e-12"),s[i+1]))
    return out
def check(accurate):
    fresh_id[0]=0
    n=z3.Int("nEF"); EF=SymArr("efall",n)
    e=[z3.Real(f"e{i}") for i in range(4)]
    env={"efall":EF,"e0":e[0],"e1":e[1],"e2":e[2],"e3":e[3],"der":0,"accurate":accurate}
    p=Path(env,[n>=0],[])
    def inv(env_,i,j):
        pe=[env_["e1"],env_["e2"],env_["e3"],env_["e4"]]
        return z3.Implies(z3.And(j>=0,j<i),env_["occ"].select(j)==V(pe,EF.select(j)))
    for node in ast.walk(fn):
        if isinstance(node,ast.For) and ast.unparse(node.iter)=="range(nEF)": INVARIANTS[node.lineno]=inv
    results=[]
    paths=[p]
    try:
        for st in fn.body:
            new=[]
            for q in paths:
                try: new+=step(st,q)
                except Return as r: results.append(r)
            paths=new
    except Return as r: results.append(r)
    obls=[]
    for r in results:
        q=r.path; j=q.env["__jpost"]; pe=[q.env["e1"],q.env["e2"],q.env["e3"],q.env["e4"]]
        post=z3.Implies(z3.And(j>=0,j<n),r.v.select(j)==V(pe,EF.select(j)))
        q.obls.append(("ensures",list(q.pc),post))
        # the perturbed corners equal the spec's spread(sorted(...)) and are strictly increasing
        obls=q.obls
    return obls,len(results)
def consts(e,acc=None):
    acc=set() if acc is None else acc
    todo=[e]; seen=set()
    while todo:
        x=todo.pop()
        if x.get_id() in seen: continue
        seen.add(x.get_id())
        if z3.is_const(x) and x.decl().kind()==z3.Z3_OP_UNINTERPRETED: acc.add(x.decl().name())
        todo+=x.children()
    return acc
def slice_min(pc,goal):
    g=consts(goal)
    return [h for h in pc if z3.is_expr(h) and consts(h)<=g]
def slice_hyps(pc,goal):
    rel=consts(goal); hs=[(h,consts(h)) for h in pc if z3.is_expr(h)]
    changed=True; keep=[False]*len(hs)
    while changed:
        changed=False
        for k,(h,c) in enumerate(hs):
            if not keep[k] and c & rel:
                keep[k]=True; rel|=c; changed=True
    return [h for k,(h,c) in enumerate(hs) if keep[k]]
tot=0; t0=time.time()
# spec lemma: 0<=V<=1, split per piece
P=[z3.Real(f"P{i}") for i in range(4)]; E=z3.Real("E"); order=z3.And(P[0]<P[1],P[1]<P[2],P[2]<P[3])
for nm,cond in (("below",E<P[0]),("c1",z3.And(E>=P[0],E<P[1])),("c2",z3.And(E>=P[1],E<P[2])),("c3",z3.And(E>=P[2],E<P[3])),("above",E>=P[3])):
    sv=z3.Solver(); sv.set("timeout",20000); sv.add(order,cond,z3.Not(z3.And(V(P,E)>=0,V(P,E)<=1))); t1=time.time(); print("lemma range",nm,sv.check(),round(time.time()-t1,2),flush=True)
for acc in (True,False):
    obls,nret=check(acc)
    ok=0
    for name,pc,goal in obls:
        t1=time.time(); r=None
        for stage,hy in (("min",slice_min(pc,goal)),("cone",slice_hyps(pc,goal)),("all",pc)):
            s=z3.Solver(); s.set("timeout",20000); s.add(*hy); s.add(z3.Not(goal)); r=s.check()
            if r==z3.unsat: break
            if r==z3.sat:
                # extend the partial counter-model to all hypotheses: pin its values, re-check the full set
                m=s.model(); s2=z3.Solver(); s2.set("timeout",20000); s2.add(*[h for h in pc if z3.is_expr(h)]); s2.add(z3.Not(goal))
                s2.add(*[d()==m[d] for d in m.decls() if d.arity()==0])
                r2=s2.check()
                if r2==z3.sat:
                    r=z3.sat; print("   counter-model:",{str(d):str(m[d]) for d in m.decls()},flush=True); break
                r=z3.unknown
        dt=time.time()-t1
        if r==z3.unsat: ok+=1
        else: print("  NOT PROVED",name,r,round(dt,1),flush=True)
        if dt>2: print("  slow",name,round(dt,1),flush=True)
    print(f"accurate={acc}: return paths {nret}, obligations {len(obls)}, valid {ok}")
print("time",round(time.time()-t0,2))
